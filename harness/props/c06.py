"""C06 — ARM decode: class selection of the proved groups against the hand-written architectural tables."""
import common as C
import statelib
from framework import Unit
import mkopthm

IMPORTS = 'From Gen Require Import decoders.'
SPEC_IMPORTS = 'From ArmV Require Import Proofs.Cube Spec.DecTables.'
GROUPS = [
    # (label, decoder module, coq function, result kind, spec table term, domain bits fixed (mask, value), env)
    ('multiply', 'arm_multiply_and_multiply_accumulate', 'dec_arm_multiply_and_multiply_accumulate', 'res',
     'mul_table', (0x0F0000F0, 0x00000090), None),
    ('load_store_word', 'arm_load_store_word_and_unsigned_byte', 'dec_arm_load_store_word_and_unsigned_byte', 'opt',
     'lsw_table', (0x0C000000, 0x04000000), '[]'),
    ('branch_block', 'arm_branch_branch_with_link_and_block_data_transfer',
     'dec_arm_branch_branch_with_link_and_block_data_transfer', 'opt', 'bbt_table', (0x0C000000, 0x08000000), 'bbt_env'),
    ('dp_immediate', 'arm_data_processing_immediate', 'dec_arm_data_processing_immediate', 'opt',
     'dpi_table', (0x0E000000, 0x02000000), '[]'),
]


def table_rows(table):
    """the bit patterns of a table of Spec/DecTables.v (the hand-written specification), in order"""
    import os, re
    src = open(os.path.join(C.VERIF, 'coq', 'theories', 'Spec', 'DecTables.v')).read()
    i = src.index(f'Definition {table} ')
    body = src[i:src.index('].', i)]
    return [re.sub(r'\s', '', m) for m in re.findall(r'row "([01x ]+)"', body)]


def cases(rng, tier):
    out = []
    n = 150 if tier == 'quick' else 6000
    for (label, module, fn, kind, table, (mask, value), env) in GROUPS:
        words = []
        # every row of the table, and its one-bit neighbours: the words where a missing or wrong test shows
        for pat in table_rows(table):
            for rep in range(3 if tier == 'quick' else 40):
                w = 0
                for ch in pat:
                    w = (w << 1) | (int(ch) if ch in '01' else rng.getrandbits(1))
                words.append(w)
                fixed = [31 - k for k, ch in enumerate(pat) if ch in '01' and 31 - k < 28]
                if rep == 0:
                    for bpos in fixed:
                        words.append(w ^ (1 << bpos))
        for i in range(n):
            words.append(None)
        for w0 in words:
            w = rng.getrandbits(32) if w0 is None else w0
            r = rng.random() if w0 is None else 1.0
            if r < 0.3:      # registers SP / PC and the special immediates of PUSH/POP single
                w = (w & ~0x000F0000) | (rng.choice([13, 15]) << 16)
            if r < 0.15:
                w = (w & ~0xFFF) | 4
            if 0.3 < r < 0.4:
                w = (w & ~0xFFFF) | rng.choice([0, 1, 0x8000, 0x8001, 3])
            w = (w & ~mask) | value
            if label == 'dp_immediate' and ((w >> 20) & 0x19) == 0x10:
                w |= 1 << 20     # op1 = 10xx0 is MOVW/MOVT/MSR, outside this group
            if (w >> 28) == 0xF:
                w &= 0xEFFFFFFF
            if kind == 'res':
                model = f'(match {fn} {w} with Val (Some c) => [0; 1; c] | Val None => [0; 0] | Err EUndefined => [2; 6] | Err _ => [2; 7] end)'
                spec = f'(enc_leaf_res (lookup {table} (LRet (Val None)) {w}) {w})'
            else:
                model = f'(match {fn} {w} with Some c => [0; 1; c] | None => [0; 0] end)'
                spec = f'(enc_leaf_opt (lookup {table} (LRet None) {w}) {env} {w})'
            out.append({'impl': {'kind': 'decode', 'module': module, 'instr': w}, 'model': model, 'spec': spec,
                        'label': label, 'nontrivial': True})
    return out


A2_GROUPS = [
    # label, module, coq fn, kind, table, env, domain fix (function on word)
    ('dp_register', 'arm_data_processing_register', 'dec_arm_data_processing_register', 'opt', 'a_dpr_table', 'a_no_env', lambda w: w & ~(1 << 4)),
    ('dp_rsr', 'arm_data_processing_register_shifted_register', 'dec_arm_data_processing_register_shifted_register', 'opt', 'a_rsr_table', 'a_no_env',
     lambda w: (w & ~(1 << 7)) | (1 << 4)),
    ('halfword_multiply', 'arm_halfword_multiply_and_multiply_accumulate', 'dec_arm_halfword_multiply_and_multiply_accumulate', 'opt', 'a_hmul_table', 'a_no_env', None),
    ('saturating', 'arm_saturating_addition_and_subtraction', 'dec_arm_saturating_addition_and_subtraction', 'opt', 'a_sat_table', 'a_no_env', None),
    ('sync', 'arm_synchronization_primitives', 'dec_arm_synchronization_primitives', 'opt', 'a_sync_table', 'a_no_env', None),
    ('misc', 'arm_miscellaneous_instructions', 'dec_arm_miscellaneous_instructions', 'res', 'a_misc_table', 'a_misc_env', None),
    ('extra_load_store', 'arm_extra_load_store_instructions', 'dec_arm_extra_load_store_instructions', 'opt', 'a_xls_table', 'a_no_env',
     lambda w: ((w | (1 << 7) | (1 << 4)) | (0 if (w >> 5) & 3 else (1 << 5))) & (~(1 << 21) if not (w >> 24) & 1 and (w >> 20) & 1 else ~0)),
    ('extra_unprivileged', 'arm_extra_load_store_instructions_unprivileged', 'dec_arm_extra_load_store_instructions_unprivileged', 'opt', 'a_xlsu_table', 'a_no_env', None),
    ('msr_hints', 'arm_msr_immediate_and_hints', 'dec_arm_msr_immediate_and_hints', 'res', 'a_msr_table', 'a_no_env_res', None),
    ('media', 'arm_media_instructions', 'dec_arm_media_instructions', 'opt', 'a_media_table', 'a_media_env', None),
    ('parallel_signed', 'arm_parallel_addition_and_subtraction_signed', 'dec_arm_parallel_addition_and_subtraction_signed', 'opt', 'a_pas_table', 'a_no_env', None),
    ('parallel_unsigned', 'arm_parallel_addition_and_subtraction_unsigned', 'dec_arm_parallel_addition_and_subtraction_unsigned', 'opt', 'a_pau_table', 'a_no_env', None),
    ('packing', 'arm_packing_unpacking_saturation_and_reversal', 'dec_arm_packing_unpacking_saturation_and_reversal', 'opt', 'a_pack_table', 'a_no_env', None),
    ('signed_multiply', 'arm_signed_multiply_signed_and_unsigned_divide', 'dec_arm_signed_multiply_signed_and_unsigned_divide', 'opt', 'a_smul_table', 'a_no_env', None),
    ('unconditional', 'arm_unconditional_instructions', 'dec_arm_unconditional_instructions', 'res', 'a_uncond_table', 'a_uncond_env', None),
    ('coprocessor', 'arm_coprocessor_instructions_and_supervisor_call', 'dec_arm_coprocessor_instructions_and_supervisor_call', 'res', 'a_cop_table', 'a_no_env_res', None),
    ('dp_misc_routing', 'arm_data_processing_and_miscellaneous_instructions', 'dec_arm_data_processing_and_miscellaneous_instructions', 'res', 'a_dpm_table', 'a_dpm_env',
     lambda w: w if not ((w >> 25) & 1 == 0 and (w >> 24) & 1 == 0 and (w >> 20) & 3 == 3 and (w >> 6) & 3 == 3 and (w >> 4) & 1) else w ^ (1 << 20)),
]


def a2_rows(table):
    import os, re
    src = open(os.path.join(C.VERIF, 'coq', 'theories', 'Spec', 'DecTablesA2.v')).read()
    i = src.index(f'Definition {table} ')
    body = src[i:src.index('].', i)]
    return [re.sub(r'\s', '', m) for m in re.findall(r'row "([01x ]+)"', body)]


def a2_cases(rng, tier):
    """class selection of the further ARM groups: every table row, its one-bit neighbours, random members"""
    out = []
    n = 60 if tier == 'quick' else 4000
    for (label, module, fn, kind, table, env, fix) in A2_GROUPS:
        words = []
        for pat in a2_rows(table):
            assert len(pat) == 32, (table, pat)
            for rep in range(2 if tier == 'quick' else 30):
                w = 0
                for ch in pat:
                    w = (w << 1) | (int(ch) if ch in '01' else rng.getrandbits(1))
                words.append(w)
                if rep == 0:
                    for k, ch in enumerate(pat):
                        if ch in '01' and 31 - k < 28:
                            words.append(w ^ (1 << (31 - k)))
        words += [rng.getrandbits(32) for _ in range(n)]
        for w in words:
            if fix:
                w = fix(w) & 0xFFFFFFFF
            if kind == 'res':
                model = f'(match {fn} {w} with Val (Some c) => [0; 1; c] | Val None => [0; 0] | Err EUndefined => [2; 6] | Err _ => [2; 7] end)'
                spec = (f'(match eval_leaf {env} (Val None) (lookup {table} (LRet (Val None)) {w}) {w} with Val (Some c) => [0; 1; c] '
                        f'| Val None => [0; 0] | Err EUndefined => [2; 6] | Err _ => [2; 7] end)')
            else:
                model = f'(match {fn} {w} with Some c => [0; 1; c] | None => [0; 0] end)'
                spec = f'(enc_leaf_opt (lookup {table} (LRet None) {w}) {env} {w})'
            out.append({'impl': {'kind': 'decode', 'module': module, 'instr': w}, 'model': model, 'spec': spec,
                        'label': 'arm_' + label, 'nontrivial': True})
    return out


def operand_cases(rng, tier):
    import opgen
    return opgen.operand_cases(rng, tier, True)


OP_IMPORTS = 'From Gen Require Import enums bits_ops shift opsyn core conc.'
OP_SPEC_IMPORTS = 'From ArmV Require Import Spec.Pseudocode.'


PROPS_FILES = ['C06'] + [f'C06ops{k}' for k in range(8)]


def units():
    thms = ['C06_top_level', 'C06_multiply', 'C06_load_store_word', 'C06_branch_block', 'C06_dp_immediate']
    return [Unit('arm_groups', thms, ['Proofs/Cube.v', 'Proofs/DecodeReify.v', 'Proofs/DecArm1.v'], [], cases, IMPORTS, SPEC_IMPORTS),
            Unit('arm_groups2', ['C06_' + s for s in ('hmul', 'sat', 'sync', 'xlsu', 'media', 'pas', 'pau', 'pack', 'smul', 'misc', 'msr',
                                                      'uncond', 'cop', 'dpr', 'rsr', 'xls', 'dp_misc_routing')],
                 ['Proofs/Cube.v', 'Proofs/DecodeReify.v', 'Proofs/DecArm2.v'], [], a2_cases, IMPORTS,
                 SPEC_IMPORTS + '\nFrom ArmV Require Import Spec.DecTablesA2.\nFrom Gen Require Import decoders.'),
            Unit('operands', ['C06_ops_' + c for c in mkopthm.classes(True)],
                 ['Proofs/OpTac.v'] + [f'Proofs/OpsA{k}.v' for k in range(8)], [], operand_cases, OP_IMPORTS, OP_SPEC_IMPORTS)]
