(* Props/C07ops4.v — C07: operand extraction of the Thumb encodings (shard 4 of 8).
   For every word of the stated domain, from_bitarray returns the class with the fields the encoding diagram
   names, and leaves the state alone.  Statements rendered from harness/optable.py by harness/mkopthm.py. *)
From Coq Require Import ZArith List Bool Lia ZifyBool.
From ArmV Require Import Lib.PyZ Lib.Monad Lib.Machine Spec.Pseudocode Spec.Arch Spec.MachineView Spec.OperandSpec.
From Gen Require Import enums bits_ops shift regviews records hubm opsyn core exec conc.
Import ListNotations.
Open Scope Z_scope.
From ArmV Require Proofs.OpsT4.

Theorem C07_ops_AddImmediateThumbT2 w s :
  0 <= w < 2 ^ 16 ->
  fb_out (AddImmediateThumbT2_from_bitarray w) s = Ok (Some (code_AddImmediateThumb, [w; not_in_it s; bits w 10 8; bits w 10 8; bits w 7 0])) s.
Proof. exact (OpsT4.ops_AddImmediateThumbT2 w s). Qed.
Print Assumptions C07_ops_AddImmediateThumbT2.

Theorem C07_ops_AddSpPlusImmediateT3 w s :
  0 <= w < 2 ^ 32 ->
  regs13 [bits w 11 8] = true ->
  fb_out (AddSpPlusImmediateT3_from_bitarray w) s = Ok (Some (code_AddSpPlusImmediate, [w; bit w 20; bits w 11 8; ThumbExpandImm (imm12t w)])) s.
Proof. exact (OpsT4.ops_AddSpPlusImmediateT3 w s). Qed.
Print Assumptions C07_ops_AddSpPlusImmediateT3.

Theorem C07_ops_AndImmediateT1 w s :
  0 <= w < 2 ^ 32 ->
  regs13 [bits w 19 16; bits w 11 8] = true ->
  fb_out (AndImmediateT1_from_bitarray w) s = Ok (Some (code_AndImmediate, [w; bit w 20; bits w 11 8; bits w 19 16; ThumbExpandImm (imm12t w); snd (ThumbExpandImm_C (imm12t w) (cflag s))])) s.
Proof. exact (OpsT4.ops_AndImmediateT1 w s). Qed.
Print Assumptions C07_ops_AndImmediateT1.

Theorem C07_ops_BfiT1 w s :
  0 <= w < 2 ^ 32 ->
  regs13 [bits w 19 16; bits w 11 8] = true ->
  pre_msb_ge_lsb_t w = true ->
  fb_out (BfiT1_from_bitarray w) s = Ok (Some (code_Bfi, [w; imm5t w; bits w 4 0; bits w 11 8; bits w 19 16])) s.
Proof. exact (OpsT4.ops_BfiT1 w s). Qed.
Print Assumptions C07_ops_BfiT1.

Theorem C07_ops_ClrexT1 w s :
  0 <= w < 2 ^ 32 ->
  in_it s = false ->
  fb_out (ClrexT1_from_bitarray w) s = Ok (Some (code_Clrex, [w])) s.
Proof. exact (OpsT4.ops_ClrexT1 w s). Qed.
Print Assumptions C07_ops_ClrexT1.

Theorem C07_ops_CmpRegisterT2 w s :
  0 <= w < 2 ^ 16 ->
  pre_cmp_t2 w = true ->
  fb_out (CmpRegisterT2_from_bitarray w) s = Ok (Some (code_CmpRegister, [w; bits w 6 3; bit w 7 * 8 + bits w 2 0; 1; 0])) s.
Proof. exact (OpsT4.ops_CmpRegisterT2 w s). Qed.
Print Assumptions C07_ops_CmpRegisterT2.

Theorem C07_ops_EorRegisterT2 w s :
  0 <= w < 2 ^ 32 ->
  regs13 [bits w 19 16; bits w 11 8; bits w 3 0] = true ->
  fb_out (EorRegisterT2_from_bitarray w) s = Ok (Some (code_EorRegister, [w; bit w 20; bits w 3 0; bits w 11 8; bits w 19 16; fst (DecodeImmShift (bits w 5 4) (imm5t w)); snd (DecodeImmShift (bits w 5 4) (imm5t w))])) s.
Proof. exact (OpsT4.ops_EorRegisterT2 w s). Qed.
Print Assumptions C07_ops_EorRegisterT2.

Theorem C07_ops_LdmThumbT1 w s :
  0 <= w < 2 ^ 16 ->
  pre_list8_nz w = true ->
  fb_out (LdmThumbT1_from_bitarray w) s = Ok (Some (code_LdmThumb, [w; if bit (bits w 7 0) (bits w 10 8) =? 0 then 1 else 0; bits w 7 0; bits w 10 8])) s.
Proof. exact (OpsT4.ops_LdmThumbT1 w s). Qed.
Print Assumptions C07_ops_LdmThumbT1.

Theorem C07_ops_LdrLiteralT2 w s :
  0 <= w < 2 ^ 32 ->
  regs13 [bits w 15 12] = true ->
  fb_out (LdrLiteralT2_from_bitarray w) s = Ok (Some (code_LdrLiteral, [w; bit w 23; bits w 11 0; bits w 15 12])) s.
Proof. exact (OpsT4.ops_LdrLiteralT2 w s). Qed.
Print Assumptions C07_ops_LdrLiteralT2.

Theorem C07_ops_LdrbRegisterT2 w s :
  0 <= w < 2 ^ 32 ->
  regs13 [bits w 19 16; bits w 15 12; bits w 3 0] = true ->
  fb_out (LdrbRegisterT2_from_bitarray w) s = Ok (Some (code_LdrbRegister, [w; 1; 0; 1; bits w 3 0; bits w 15 12; bits w 19 16; 1; bits w 5 4])) s.
Proof. exact (OpsT4.ops_LdrbRegisterT2 w s). Qed.
Print Assumptions C07_ops_LdrbRegisterT2.

Theorem C07_ops_LdrhImmediateThumbT1 w s :
  0 <= w < 2 ^ 16 ->
  fb_out (LdrhImmediateThumbT1_from_bitarray w) s = Ok (Some (code_LdrhImmediateThumb, [w; 1; 0; 1; bits w 2 0; bits w 5 3; bits w 10 6 * 2])) s.
Proof. exact (OpsT4.ops_LdrhImmediateThumbT1 w s). Qed.
Print Assumptions C07_ops_LdrhImmediateThumbT1.

Theorem C07_ops_LdrsbImmediateT2 w s :
  0 <= w < 2 ^ 32 ->
  regs13 [bits w 19 16; bits w 15 12] = true ->
  pre_puw w = true ->
  fb_out (LdrsbImmediateT2_from_bitarray w) s = Ok (Some (code_LdrsbImmediate, [w; bit w 9; bit w 8; bit w 10; bits w 7 0; bits w 15 12; bits w 19 16])) s.
Proof. exact (OpsT4.ops_LdrsbImmediateT2 w s). Qed.
Print Assumptions C07_ops_LdrsbImmediateT2.

Theorem C07_ops_LdrshRegisterT1 w s :
  0 <= w < 2 ^ 16 ->
  fb_out (LdrshRegisterT1_from_bitarray w) s = Ok (Some (code_LdrshRegister, [w; 1; 0; 1; bits w 8 6; bits w 2 0; bits w 5 3; 1; 0])) s.
Proof. exact (OpsT4.ops_LdrshRegisterT1 w s). Qed.
Print Assumptions C07_ops_LdrshRegisterT1.

Theorem C07_ops_LsrImmediateT1 w s :
  0 <= w < 2 ^ 16 ->
  fb_out (LsrImmediateT1_from_bitarray w) s = Ok (Some (code_LsrImmediate, [w; not_in_it s; bits w 5 3; bits w 2 0; snd (DecodeImmShift 1 (bits w 10 6))])) s.
Proof. exact (OpsT4.ops_LsrImmediateT1 w s). Qed.
Print Assumptions C07_ops_LsrImmediateT1.

Theorem C07_ops_MlaT1 w s :
  0 <= w < 2 ^ 32 ->
  regs13 [bits w 19 16; bits w 15 12; bits w 11 8; bits w 3 0] = true ->
  fb_out (MlaT1_from_bitarray w) s = Ok (Some (code_Mla, [w; 0; bits w 3 0; bits w 15 12; bits w 11 8; bits w 19 16])) s.
Proof. exact (OpsT4.ops_MlaT1 w s). Qed.
Print Assumptions C07_ops_MlaT1.

Theorem C07_ops_MovtT1 w s :
  0 <= w < 2 ^ 32 ->
  regs13 [bits w 11 8] = true ->
  fb_out (MovtT1_from_bitarray w) s = Ok (Some (code_Movt, [w; bits w 11 8; bits w 19 16 * 2 ^ 12 + (imm12t w)])) s.
Proof. exact (OpsT4.ops_MovtT1 w s). Qed.
Print Assumptions C07_ops_MovtT1.

Theorem C07_ops_MsrRegisterSystemT1 w s :
  0 <= w < 2 ^ 32 ->
  regs13 [bits w 19 16] = true ->
  pre_msr_sys_t w = true ->
  fb_out (MsrRegisterSystemT1_from_bitarray w) s = Ok (Some (code_MsrRegisterSystem, [w; bit w 20; bits w 11 8; bits w 19 16])) s.
Proof. exact (OpsT4.ops_MsrRegisterSystemT1 w s). Qed.
Print Assumptions C07_ops_MsrRegisterSystemT1.

Theorem C07_ops_OrnImmediateT1 w s :
  0 <= w < 2 ^ 32 ->
  regs13 [bits w 19 16; bits w 11 8] = true ->
  fb_out (OrnImmediateT1_from_bitarray w) s = Ok (Some (code_OrnImmediate, [w; bit w 20; bits w 11 8; bits w 19 16; ThumbExpandImm (imm12t w); snd (ThumbExpandImm_C (imm12t w) (cflag s))])) s.
Proof. exact (OpsT4.ops_OrnImmediateT1 w s). Qed.
Print Assumptions C07_ops_OrnImmediateT1.

Theorem C07_ops_PldLiteralT1 w s :
  0 <= w < 2 ^ 32 ->
  fb_out (PldLiteralT1_from_bitarray w) s = Ok (Some (code_PldLiteral, [w; bit w 23; bits w 11 0])) s.
Proof. exact (OpsT4.ops_PldLiteralT1 w s). Qed.
Print Assumptions C07_ops_PldLiteralT1.

Theorem C07_ops_Qadd8T1 w s :
  0 <= w < 2 ^ 32 ->
  regs13 [bits w 19 16; bits w 11 8; bits w 3 0] = true ->
  fb_out (Qadd8T1_from_bitarray w) s = Ok (Some (code_Qadd8, [w; bits w 3 0; bits w 11 8; bits w 19 16])) s.
Proof. exact (OpsT4.ops_Qadd8T1 w s). Qed.
Print Assumptions C07_ops_Qadd8T1.

Theorem C07_ops_QsubT1 w s :
  0 <= w < 2 ^ 32 ->
  regs13 [bits w 19 16; bits w 11 8; bits w 3 0] = true ->
  fb_out (QsubT1_from_bitarray w) s = Ok (Some (code_Qsub, [w; bits w 3 0; bits w 11 8; bits w 19 16])) s.
Proof. exact (OpsT4.ops_QsubT1 w s). Qed.
Print Assumptions C07_ops_QsubT1.

Theorem C07_ops_RfeT1 w s :
  0 <= w < 2 ^ 32 ->
  regs13 [bits w 19 16] = true ->
  in_it s = false ->
  fb_out (RfeT1_from_bitarray w) s = Ok (Some (code_Rfe, [w; 0; 0; bit w 21; bits w 19 16])) s.
Proof. exact (OpsT4.ops_RfeT1 w s). Qed.
Print Assumptions C07_ops_RfeT1.

Theorem C07_ops_RsbRegisterT1 w s :
  0 <= w < 2 ^ 32 ->
  regs13 [bits w 19 16; bits w 11 8; bits w 3 0] = true ->
  fb_out (RsbRegisterT1_from_bitarray w) s = Ok (Some (code_RsbRegister, [w; bit w 20; bits w 3 0; bits w 11 8; bits w 19 16; fst (DecodeImmShift (bits w 5 4) (imm5t w)); snd (DecodeImmShift (bits w 5 4) (imm5t w))])) s.
Proof. exact (OpsT4.ops_RsbRegisterT1 w s). Qed.
Print Assumptions C07_ops_RsbRegisterT1.

Theorem C07_ops_SdivT1 w s :
  0 <= w < 2 ^ 32 ->
  regs13 [bits w 19 16; bits w 11 8; bits w 3 0] = true ->
  fb_out (SdivT1_from_bitarray w) s = Ok (Some (code_Sdiv, [w; bits w 3 0; bits w 11 8; bits w 19 16])) s.
Proof. exact (OpsT4.ops_SdivT1 w s). Qed.
Print Assumptions C07_ops_SdivT1.

Theorem C07_ops_ShsaxT1 w s :
  0 <= w < 2 ^ 32 ->
  regs13 [bits w 19 16; bits w 11 8; bits w 3 0] = true ->
  fb_out (ShsaxT1_from_bitarray w) s = Ok (Some (code_Shsax, [w; bits w 3 0; bits w 11 8; bits w 19 16])) s.
Proof. exact (OpsT4.ops_ShsaxT1 w s). Qed.
Print Assumptions C07_ops_ShsaxT1.

Theorem C07_ops_SmlalxyT1 w s :
  0 <= w < 2 ^ 32 ->
  regs13 [bits w 19 16; bits w 15 12; bits w 11 8; bits w 3 0] = true ->
  fb_out (SmlalxyT1_from_bitarray w) s = Ok (Some (code_Smlalxy, [w; bit w 4; bit w 5; bits w 3 0; bits w 11 8; bits w 15 12; bits w 19 16])) s.
Proof. exact (OpsT4.ops_SmlalxyT1 w s). Qed.
Print Assumptions C07_ops_SmlalxyT1.

Theorem C07_ops_SmulT1 w s :
  0 <= w < 2 ^ 32 ->
  regs13 [bits w 19 16; bits w 11 8; bits w 3 0] = true ->
  fb_out (SmulT1_from_bitarray w) s = Ok (Some (code_Smul, [w; bit w 4; bit w 5; bits w 3 0; bits w 11 8; bits w 19 16])) s.
Proof. exact (OpsT4.ops_SmulT1 w s). Qed.
Print Assumptions C07_ops_SmulT1.

Theorem C07_ops_SsaxT1 w s :
  0 <= w < 2 ^ 32 ->
  regs13 [bits w 19 16; bits w 11 8; bits w 3 0] = true ->
  fb_out (SsaxT1_from_bitarray w) s = Ok (Some (code_Ssax, [w; bits w 3 0; bits w 11 8; bits w 19 16])) s.
Proof. exact (OpsT4.ops_SsaxT1 w s). Qed.
Print Assumptions C07_ops_SsaxT1.

Theorem C07_ops_StrImmediateThumbT1 w s :
  0 <= w < 2 ^ 16 ->
  fb_out (StrImmediateThumbT1_from_bitarray w) s = Ok (Some (code_StrImmediateThumb, [w; 1; 0; 1; bits w 2 0; bits w 5 3; bits w 10 6 * 4])) s.
Proof. exact (OpsT4.ops_StrImmediateThumbT1 w s). Qed.
Print Assumptions C07_ops_StrImmediateThumbT1.

Theorem C07_ops_StrbImmediateThumbT3 w s :
  0 <= w < 2 ^ 32 ->
  regs13 [bits w 19 16; bits w 15 12] = true ->
  pre_puw w = true ->
  fb_out (StrbImmediateThumbT3_from_bitarray w) s = Ok (Some (code_StrbImmediateThumb, [w; bit w 9; bit w 8; bit w 10; bits w 15 12; bits w 19 16; bits w 7 0])) s.
Proof. exact (OpsT4.ops_StrbImmediateThumbT3 w s). Qed.
Print Assumptions C07_ops_StrbImmediateThumbT3.

Theorem C07_ops_StrexhT1 w s :
  0 <= w < 2 ^ 32 ->
  regs13 [bits w 19 16; bits w 15 12; bits w 3 0] = true ->
  bit w 8 = 1 ->
  bit w 9 = 1 ->
  bit w 10 = 1 ->
  bit w 11 = 1 ->
  fb_out (StrexhT1_from_bitarray w) s = Ok (Some (code_Strexh, [w; bits w 15 12; bits w 3 0; bits w 19 16])) s.
Proof. exact (OpsT4.ops_StrexhT1 w s). Qed.
Print Assumptions C07_ops_StrexhT1.

Theorem C07_ops_SubImmediateThumbT1 w s :
  0 <= w < 2 ^ 16 ->
  fb_out (SubImmediateThumbT1_from_bitarray w) s = Ok (Some (code_SubImmediateThumb, [w; not_in_it s; bits w 2 0; bits w 5 3; bits w 8 6])) s.
Proof. exact (OpsT4.ops_SubImmediateThumbT1 w s). Qed.
Print Assumptions C07_ops_SubImmediateThumbT1.

Theorem C07_ops_SubSpMinusImmediateT3 w s :
  0 <= w < 2 ^ 32 ->
  regs13 [bits w 11 8] = true ->
  fb_out (SubSpMinusImmediateT3_from_bitarray w) s = Ok (Some (code_SubSpMinusImmediate, [w; 0; bits w 11 8; imm12t w])) s.
Proof. exact (OpsT4.ops_SubSpMinusImmediateT3 w s). Qed.
Print Assumptions C07_ops_SubSpMinusImmediateT3.

Theorem C07_ops_SxtbT1 w s :
  0 <= w < 2 ^ 16 ->
  fb_out (SxtbT1_from_bitarray w) s = Ok (Some (code_Sxtb, [w; bits w 5 3; bits w 2 0; 0])) s.
Proof. exact (OpsT4.ops_SxtbT1 w s). Qed.
Print Assumptions C07_ops_SxtbT1.

Theorem C07_ops_TstRegisterT1 w s :
  0 <= w < 2 ^ 16 ->
  fb_out (TstRegisterT1_from_bitarray w) s = Ok (Some (code_TstRegister, [w; bits w 5 3; bits w 2 0; 1; 0])) s.
Proof. exact (OpsT4.ops_TstRegisterT1 w s). Qed.
Print Assumptions C07_ops_TstRegisterT1.

Theorem C07_ops_UdivT1 w s :
  0 <= w < 2 ^ 32 ->
  regs13 [bits w 19 16; bits w 11 8; bits w 3 0] = true ->
  fb_out (UdivT1_from_bitarray w) s = Ok (Some (code_Udiv, [w; bits w 3 0; bits w 11 8; bits w 19 16])) s.
Proof. exact (OpsT4.ops_UdivT1 w s). Qed.
Print Assumptions C07_ops_UdivT1.

Theorem C07_ops_UmlalT1 w s :
  0 <= w < 2 ^ 32 ->
  regs13 [bits w 19 16; bits w 15 12; bits w 11 8; bits w 3 0] = true ->
  fb_out (UmlalT1_from_bitarray w) s = Ok (Some (code_Umlal, [w; 0; bits w 3 0; bits w 11 8; bits w 15 12; bits w 19 16])) s.
Proof. exact (OpsT4.ops_UmlalT1 w s). Qed.
Print Assumptions C07_ops_UmlalT1.

Theorem C07_ops_Usad8T1 w s :
  0 <= w < 2 ^ 32 ->
  regs13 [bits w 19 16; bits w 11 8; bits w 3 0] = true ->
  fb_out (Usad8T1_from_bitarray w) s = Ok (Some (code_Usad8, [w; bits w 3 0; bits w 11 8; bits w 19 16])) s.
Proof. exact (OpsT4.ops_Usad8T1 w s). Qed.
Print Assumptions C07_ops_Usad8T1.

Theorem C07_ops_UxtabT1 w s :
  0 <= w < 2 ^ 32 ->
  regs13 [bits w 19 16; bits w 11 8; bits w 3 0] = true ->
  fb_out (UxtabT1_from_bitarray w) s = Ok (Some (code_Uxtab, [w; bits w 3 0; bits w 11 8; bits w 19 16; bits w 5 4 * 8])) s.
Proof. exact (OpsT4.ops_UxtabT1 w s). Qed.
Print Assumptions C07_ops_UxtabT1.

Theorem C07_ops_WfeT2 w s :
  0 <= w < 2 ^ 32 ->
  in_it s = false ->
  fb_out (WfeT2_from_bitarray w) s = Ok (Some (code_Wfe, [w])) s.
Proof. exact (OpsT4.ops_WfeT2 w s). Qed.
Print Assumptions C07_ops_WfeT2.
